/-
Line-protocol driver: one request per line on stdin, one answer per line on stdout.
Unknown or ill-formed requests answer `bad-op`; the model never defaults.
-/
import DnaModel.Model.Seq
import DnaModel.Model.Loc
import DnaModel.Model.Pattern
import DnaModel.Model.Space
import DnaModel.Model.TableSpec
import DnaModel.Model.Builtin
import DnaModel.Model.Report
import DnaModel.Model.Label
import DnaModel.Model.Circular

open Dna

namespace Drv

def int? (s : String) : Option Int := s.toInt?
def nat? (s : String) : Option Nat := s.toNat?

def optInt? (s : String) : Option (Option Int) :=
  if s == "-" then some none else (s.toInt?).map some

def bool? (s : String) : Option Bool :=
  if s == "1" then some true else if s == "0" then some false else none

/-- sequences are sent as-is; the empty sequence is `.` -/
def seqOf (s : String) : Seq := if s == "." then [] else s.toList
def seqStr (s : Seq) : String := if s.isEmpty then "." else String.ofList s

def locStr (l : Loc) : String := s!"{l.start} {l.stop} {l.strand}"
def optLocStr : Option Loc → String
  | none => "none"
  | some l => locStr l

def locs? : List String → Option (List Loc)
  | [] => some []
  | a :: b :: c :: rest => do
    let a ← int? a; let b ← int? b; let c ← int? c
    let r ← locs? rest
    pure (⟨a, b, c⟩ :: r)
  | _ => none

def ints? : List String → Option (List Int)
  | [] => some []
  | a :: rest => do
    let a ← int? a
    let r ← ints? rest
    pure (a :: r)

def joinWith (sep : String) (xs : List String) : String := sep.intercalate xs

def handleLoc : List String → Option String
  | ["loc.overlap", a, b, c, d, e, f] => do
    let l1 : Loc := ⟨← int? a, ← int? b, ← int? c⟩
    let l2 : Loc := ⟨← int? d, ← int? e, ← int? f⟩
    pure (optLocStr (l1.overlap l2))
  | ["loc.extended", a, b, c, n, lo, hi, left, right] => do
    let l : Loc := ⟨← int? a, ← int? b, ← int? c⟩
    pure (locStr (l.extended (← int? n) (← int? lo) (← optInt? hi) (← bool? left) (← bool? right)))
  | "loc.merge" :: rest => do
    let ls ← locs? rest
    pure (joinWith " ; " ((Loc.mergeOverlapping ls).map locStr))
  | ["loc.lt", a, b, c, d, e, f] => do
    let l1 : Loc := ⟨← int? a, ← int? b, ← int? c⟩
    let l2 : Loc := ⟨← int? d, ← int? e, ← int? f⟩
    pure s!"{l1.lt l2} {decide (l1 = l2)} {l1.le l2}"
  | ["loc.shift", a, b, c, n] => do
    let l : Loc := ⟨← int? a, ← int? b, ← int? c⟩
    let n ← int? n
    pure s!"{locStr (l.shift n)} ; {locStr (l.unshift n)} ; {l.len}"
  | ["loc.indices", a, b, c] => do
    let l : Loc := ⟨← int? a, ← int? b, ← int? c⟩
    pure (joinWith " " (l.indices.map toString))
  | ["loc.extract", a, b, c, s] => do
    let l : Loc := ⟨← int? a, ← int? b, ← int? c⟩
    pure (match l.extract (seqOf s) with | none => "KeyError" | some r => seqStr r)
  | ["loc.ofbio", a, b, c] => do
    pure (locStr (Loc.ofBio (← int? a) (← int? b) (← optInt? c)))
  | _ => none

def handleSeq : List String → Option String
  | ["seq.complement", s] =>
    pure (match complement (seqOf s) with | none => "KeyError" | some r => seqStr r)
  | ["seq.rc", s] =>
    pure (match reverseComplement (seqOf s) with | none => "KeyError" | some r => seqStr r)
  | ["seq.translate", tname, st, s] => do
    let t ← findTable (tname.replace "_" " ")
    pure (match translate t (← bool? st) (seqOf s) with | none => "TranslationError" | some r => seqStr r)
  | ["seq.revtrans", tname, p] => do
    let t ← findTable (tname.replace "_" " ")
    pure (match reverseTranslate t (seqOf p) with | none => "KeyError" | some r => seqStr r)
  | ["seq.gcwin", w, s] => do
    let w ← nat?  w
    if w == 0 then none else
    pure (joinWith " " ((gcWindowsCumsum (seqOf s) w).map toString))
  | ["seq.gc", s] => pure s!"{gcCount (seqOf s)} {(seqOf s).length}"
  | ["seq.diff", s, t] =>
    let s := seqOf s; let t := seqOf t
    if s.length != t.length then pure "ValueError" else
    pure (s!"{diffCount s t} | " ++ joinWith " " ((diffArray s t).map (fun b => if b then "1" else "0"))
      ++ " | " ++ joinWith " " ((diffSegments s t).map (fun p => s!"{p.1}-{p.2}"))
      ++ " | " ++ joinWith " " ((runs (diffArray s t)).map (fun p => s!"{p.1}-{p.2}")))
  | ["seq.subdivide", a, b, m] => do
    let m ← nat? m
    if m == 0 then none else
    pure (joinWith " " ((subdivideWindow (← int? a) (← int? b) m).map (fun p => s!"{p.1}:{p.2}")))
  | "seq.group" :: gap :: spread :: rest => do
    let xs ← ints? rest
    let gs := groupNearbyIndices xs (← optInt? gap) (← optInt? spread)
    pure (joinWith " | " (gs.map (fun g => joinWith " " (g.map toString))))
  | "seq.groupseg" :: gap :: spread :: rest => do
    let xs ← ints? rest
    let rec pairs : List Int → List (Int × Int)
      | a :: b :: r => (a, b) :: pairs r
      | _ => []
    let gs := groupNearbySegments (pairs xs) (← optInt? gap) (← optInt? spread)
    pure (joinWith " | " (gs.map (fun g => joinWith " " (g.map (fun p => s!"{p.1}:{p.2}")))))
  | ["seq.winoverlap", a, b, c, d] => do
    pure (match windowsOverlap (← int? a, ← int? b) (← int? c, ← int? d) with
      | none => "none" | some (x, y) => s!"{x} {y}")
  | _ => none

/-- pattern arguments: `dna <IUPAC>` or `rep <n> <k>`; returns the pattern and the remaining tokens -/
def pattern? : List String → Option (Pattern × List String)
  | "dna" :: p :: rest => some (.dna (seqOf p), rest)
  | "rep" :: n :: k :: rest => do pure (.repeated (← nat? n) (← nat? k), rest)
  | _ => none

def locsStr (ls : List Loc) : String := if ls.isEmpty then "-" else joinWith " ; " (ls.map locStr)

def handlePat : List String → Option String
  | "pat.find" :: rest => do
    let (p, rest) ← pattern? rest
    match rest with
    | [s, a, b, c] =>
      let loc : Loc := ⟨← int? a, ← int? b, ← int? c⟩
      pure (match p.findMatches (seqOf s) loc with | none => "KeyError" | some ls => locsStr ls)
    | [s] => pure (locsStr ((p.findInString (seqOf s)).map (fun (st : Nat) => ⟨(st : Int), (st : Int) + p.size, 1⟩)))
    | _ => none
  | "pat.info" :: rest => do
    let (p, _) ← pattern? rest
    pure s!"{p.size} {p.isPalindromic}"
  | _ => none

/-! ### mutation spaces -/

def variantsOf (s : String) : List Seq :=
  if s == "" then [] else (s.splitOn ",").map seqOf

/-- `start:stop:v1,v2,...` -/
def restriction? (s : String) : Option Space.Restriction :=
  match s.splitOn ":" with
  | [a, b, vs] => do pure ⟨← nat? a, ← nat? b, variantsOf vs⟩
  | _ => none

def choice? (s : String) : Option Choice :=
  match s.splitOn ":" with
  | [a, b, vs] => do pure { start := ← nat? a, stop := ← nat? b, variants := variantsOf vs }
  | _ => none

def restrictions? : List String → Option (List Space.Restriction)
  | [] => some []
  | r :: rs => do pure ((← restriction? r) :: (← restrictions? rs))

def splitBar (toks : List String) : List (List String) :=
  toks.foldr (fun t acc => if t == "|" then [] :: acc else match acc with
    | [] => [[t]]
    | g :: gs => (t :: g) :: gs) [[]]

def sortedVariants (vs : List Seq) : String := joinWith "," ((sortSeqs vs).map seqStr)
def choiceStr (c : Choice) : String := s!"{c.start}-{c.stop}:{sortedVariants c.variants}"
def choicesStr (cs : List Choice) : String := if cs.isEmpty then "-" else joinWith " " (cs.map choiceStr)

def spaceErrStr : SpaceErr → String
  | .valueError => "ValueError"
  | .crash _ => "crash"
  | .tape => "tape-error"

def nats? : List String → Option (List Nat)
  | [] => some []
  | a :: rest => do pure ((← nat? a) :: (← nats? rest))

def buildSpace (parts : List String) : Option (Except SpaceErr Space) :=
  match parts with
  | s :: rs => do
    let rs ← restrictions? rs
    pure (Space.fromRestrictions (seqOf s) rs)
  | _ => none

def localizedOpt (sp : Space) : List String → Option Space
  | ["-", "-"] => some sp
  | [a, b] => do pure (sp.localized (← int? a) (← int? b))
  | _ => none

def handleSpace (toks : List String) : Option String :=
  match toks with
  | cmd :: rest =>
    match splitBar rest with
    | build :: args => do
      let esp ← buildSpace build
      match esp with
      | .error e => pure (spaceErrStr e)
      | .ok sp =>
        match cmd, args with
        | "space.build", [] =>
          pure (choicesStr sp.choicesList ++ " | unsolvable " ++
            joinWith " " (sp.unsolvable.map (fun p => s!"{p.1}-{p.2}")))
        | "space.localized", [loc] => do
          let l ← localizedOpt sp loc
          let pad := (l.index.takeWhile (·.isNone)).length
          let span := match l.choicesSpan with | none => "None" | some (a, b) => s!"{a}-{b}"
          pure s!"{choicesStr l.choicesList} | pad {pad} len {l.index.length} | span {span} | size {l.sizeProduct}"
        | "space.constrain", [[sq], tape] => do
          let t ← nats? tape
          pure (match sp.constrainSequence (seqOf sq) t with
            | .error e => spaceErrStr e
            | .ok (r, t') => s!"{seqStr r} used {t.length - t'.length}")
        | "space.apply", [loc, [n], [sq], tape] => do
          let l ← localizedOpt sp loc
          let t ← nats? tape
          pure (match l.applyRandomMutations (← nat? n) (seqOf sq) t with
            | .error e => spaceErrStr e
            | .ok (r, t') => s!"{seqStr r} used {t.length - t'.length}")
        | "space.all", [loc, [sq]] => do
          let l ← localizedOpt sp loc
          pure (match l.allVariants (seqOf sq) with
            | .error e => spaceErrStr e
            | .ok vs => joinWith " " (vs.map seqStr))
        | _, _ => none
    | _ => none
  | _ => none

def handleChoice : List String → Option String
  | "choice.merge" :: self :: others => do
    let c ← choice? self
    let os ← others.mapM choice?
    pure (match c.mergeWith os with | none => "crash" | some r => choiceStr r)
  | ["choice.extract", c] => do
    let c ← choice? c
    pure (choicesStr c.extractVaryingRegion)
  | _ => none

/-! ### solver, table-driven specifications -/

open TableSpec in
def floatOf? (s : String) : Option Float := (s.toNat?).map (fun n => Float.ofBits n.toUInt64)

def optFloat? (s : String) : Option (Option Float) :=
  if s == "-" then some none else (floatOf? s).map some

def derive? (s : String) : Option Derive :=
  if s == "s" then some .same else if s == "c" then some .copy else if s == "f" then some .fresh else none

/-- `-` = None, `e` = empty list, else `a.b.s,a.b.s` -/
def evalLocs? (s : String) : Option (Option (List Loc)) :=
  if s == "-" then some none
  else if s == "e" then some (some [])
  else do
    let ls ← (s.splitOn ",").mapM (fun t => match t.splitOn "." with
      | [a, b, c] => do pure (⟨← int? a, ← int? b, ← int? c⟩ : Loc)
      | _ => none)
    pure (some ls)

def faultId? (s : String) : Option Nat :=
  if s.startsWith "F" then (s.drop 1).toString.toNat? else none

open TableSpec in
def parseAttr (s : String) : Option (Nat × Attr) :=
  match s.splitOn ":" with
  | [h, enf, prio, best, boost, passive, acc, heur] => do
    pure (← nat? h, { enforced := ← bool? enf, priority := ← int? prio, best := ← optFloat? best,
                      boost := ← floatOf? boost, passive := ← bool? passive, acceptsRh := ← bool? acc,
                      hasHeuristic := ← bool? heur })
  | _ => none

open TableSpec in
def parseEval (s : String) : Option ((Nat × Seq) × Eval Float) :=
  match s.splitOn ":" with
  | [h, sq, score, locs] => do
    pure ((← nat? h, seqOf sq), { score := ← floatOf? score, locs := ← evalLocs? locs })
  | _ => none

def parseEvalFault (s : String) : Option (Nat × Nat) :=
  match s.splitOn ":" with
  | [k, f] => do pure (← nat? k, ← faultId? f)
  | _ => none

open TableSpec in
def parseAlloc (s : String) : Option Alloc :=
  match s.splitOn ":" with
  | ["L", h, a, b, st, rh, sq, res] => do
    let key := (← nat? h, ← int? a, ← int? b, ← int? st, ← nat? rh, seqOf sq)
    if res == "N" then pure (.loc key (.val none))
    else match faultId? res with
      | some n => pure (.loc key (.fault n))
      | none => match res.splitOn "." with
        | [h', d] => do pure (.loc key (.val (some (← nat? h', ← derive? d))))
        | _ => none
  | ["I", h, sq, role, res] => do
    let key := (← nat? h, seqOf sq, ← nat? role)
    match faultId? res with
    | some n => pure (.init key (.fault n))
    | none => match res.splitOn "." with
      | [h', d] => do pure (.init key (.val (← nat? h', ← derive? d)))
      | _ => none
  | _ => none

def parseHeur (s : String) : Option ((Nat × Seq) × (Seq × Bool)) :=
  match s.splitOn ":" with
  | [h, sq, sq', ok] => do pure ((← nat? h, seqOf sq), (seqOf sq', ← bool? ok))
  | _ => none

def errStr : Err → String
  | .noSolution _ => "NoSolution"
  | .valueError => "ValueError"
  | .crash _ => "crash"
  | .fault n => if n ≥ TableSpec.missInit then s!"table-miss:init:{n - TableSpec.missInit}"
                else if n ≥ TableSpec.missLoc then s!"table-miss:localized:{n - TableSpec.missLoc}"
                else if n ≥ TableSpec.missEval then s!"table-miss:evaluate:{n - TableSpec.missEval}"
                else s!"fault:{n}"
  | .tape => "tape-error"
  | .tableMiss w => s!"table-miss:{w}"

def parseSettings : List String → Option Settings
  | [thr, iters, muts, stag, exts] => do
    let exts ← (exts.splitOn ",").mapM int?
    pure { randomizationThreshold := ← nat? thr, maxRandomIters := ← nat? iters, mutationsPerIteration := ← nat? muts,
           stagnationTolerance := ← (if stag == "-" then some none else (nat? stag).map some),
           localExtensions := exts }
  | _ => none

def handleSolve (toks : List String) : Option String :=
  match toks with
  | cmd :: rest =>
    match splitBar rest with
    | [_, sett, seq0f, restrs, [sq], cons, objs, attrs, evals, efaults, allocs, heurs, tape, focus] => do
      -- `seq0` alone, or `seq0 a b`: the problem was given `mutation_space.localized((a, b))` as its space
      let (seq0, window) ← (match seq0f with
        | [x] => some (x, (none : Option (Int × Int)))
        | [x, a, b] => do pure (x, some (← int? a, ← int? b))
        | _ => none)
      let sett ← parseSettings sett
      let rs ← restrictions? restrs
      let tables : TableSpec.Tables := {
        attrs := Std.HashMap.ofList (← attrs.mapM parseAttr), evals := Std.HashMap.ofList (← evals.mapM parseEval),
        evalFaults := ← efaults.mapM parseEvalFault, allocs := (← allocs.mapM parseAlloc).toArray,
        heurs := (← heurs.mapM parseHeur).toArray }
      let ops := TableSpec.ops tables
      let tape ← nats? tape
      let focus ← nats? focus
      match Space.fromRestrictions (seqOf seq0) rs with
      | .error e => pure ("space:" ++ spaceErrStr e)
      | .ok sp =>
        let sp := match window with
          | some (a, b) => sp.localized a b
          | none => sp
        let F : Frame Nat := { constraints := ← nats? cons, objectives := ← nats? objs, space := sp, seqBefore := seqOf sq }
        let s0 := seqOf sq
        let st : St Nat Float := { shared := { focus := focus }, tape := tape }
        let run : Option (Except Err Unit × Seq × St Nat Float) :=
          if cmd == "solve.resolve" then some (Solver.resolveConstraints ops sett F s0 st)
          else if cmd == "solve.optimize" then some (Solver.optimize ops sett F s0 st)
          else if cmd == "solve.exh_resolve" then some (Solver.resolveExhaustive ops F s0 st)
          else if cmd == "solve.rnd_resolve" then some (Solver.resolveRandom ops sett F s0 st)
          else if cmd == "solve.exh_optimize" then some (Solver.optimizeExhaustive ops F s0 st)
          else if cmd == "solve.rnd_optimize" then some (Solver.optimizeRandom ops sett F s0 st)
          else none
        let (r, s', st') ← run
        let outcome := match r with | .ok () => "ok" | .error e => errStr e
        pure s!"{outcome} ; {seqStr s'} ; {joinWith "," (st'.trace.reverse.map seqStr)} ; {tape.length - st'.tape.length}"
    | _ => none
  | _ => none

/-- views of a circular run: after the 14 common sections, three sections per view: constraints | central | restrictions -/
def views? : List (List String) → Option (List (Circular.View Nat))
  | [] => some []
  | cons :: central :: restrs :: rest => do
    let v : Circular.View Nat := { constraints := ← nats? cons, central := ← nats? central, restrs := ← restrictions? restrs }
    pure (v :: (← views? rest))
  | _ => none

def handleCirc (toks : List String) : Option String :=
  match toks with
  | _ :: rest =>
    match splitBar rest with
    | _ :: sett :: _ :: _ :: [sq] :: _ :: _ :: attrs :: evals :: efaults :: allocs :: heurs :: tape :: focus :: vs => do
      let sett ← parseSettings sett
      let tables : TableSpec.Tables := {
        attrs := Std.HashMap.ofList (← attrs.mapM parseAttr), evals := Std.HashMap.ofList (← evals.mapM parseEval),
        evalFaults := ← efaults.mapM parseEvalFault, allocs := (← allocs.mapM parseAlloc).toArray,
        heurs := (← heurs.mapM parseHeur).toArray }
      let ops := TableSpec.ops tables
      let tape ← nats? tape
      let focus ← nats? focus
      let views := (← views? vs).toArray
      let st : St Nat Float := { shared := { focus := focus }, tape := tape }
      let (r, s', st') := Circular.circResolve ops sett (fun k => views[k]?) (seqOf sq) st
      let outcome := match r with | .ok () => "ok" | .error e => errStr e
      pure s!"{outcome} ; {seqStr s'} ; {joinWith "," (st'.trace.reverse.map seqStr)} ; {tape.length - st'.tape.length}"
    | _ => none
  | _ => none

/-! ### built-in specifications -/

def patStr : Pattern → String
  | .dna q => "dna:" ++ seqStr q
  | .repeated n k => s!"rep:{n}:{k}"

def pat? (s : String) : Option Pattern :=
  match s.splitOn ":" with
  | ["dna", q] => some (.dna (seqOf q))
  | ["rep", n, k] => do pure (.repeated (← nat? n) (← nat? k))
  | _ => none

def fbits (x : Float) : String := toString x.toBits.toNat

def optNatStr : Option Nat → String
  | none => "-"
  | some n => toString n

def seqsStr (l : List Seq) : String := if l.isEmpty then "-" else joinWith "," (l.map seqStr)
def seqs? (s : String) : List Seq := if s == "-" then [] else (s.splitOn ",").map seqOf

def scopeStr : Scope → String
  | .loc l => s!"L:{l.start}:{l.stop}:{l.strand}"
  | .indices l idx => s!"I:{l.start}:{l.stop}:{l.strand}:" ++ (if idx.isEmpty then "-" else joinWith "," (idx.map toString))

def scope? (s : String) : Option Scope :=
  match s.splitOn ":" with
  | ["L", a, b, c] => do pure (.loc ⟨← int? a, ← int? b, ← int? c⟩)
  | ["I", a, b, c, idx] => do
    let l : Loc := ⟨← int? a, ← int? b, ← int? c⟩
    let is ← if idx == "-" then some [] else (idx.splitOn ",").mapM int?
    pure (.indices l is)
  | _ => none

def startStr : StartPolicy → String
  | .none => "-"
  | .keep => "keep"
  | .codons cs => seqsStr cs

def start? (s : String) : StartPolicy :=
  if s == "-" then .none else if s == "keep" then .keep else .codons (seqs? s)

def optF? (s : String) : Option (Option Float) := optFloat? s
def optFStr : Option Float → String
  | none => "-"
  | some x => fbits x

def kvF? (s : String) : Option (List (Seq × Float)) :=
  if s == "-" then some [] else (s.splitOn ",").mapM (fun t => match t.splitOn "=" with
    | [k, v] => do pure (seqOf k, ← floatOf? v)
    | _ => none)
def kvFStr (l : List (Seq × Float)) : String :=
  if l.isEmpty then "-" else joinWith "," (l.map (fun p => seqStr p.1 ++ "=" ++ fbits p.2))

def kvCharF? (s : String) : Option (List (Char × Float)) :=
  (kvF? s).bind (fun l => l.mapM (fun p => match p.1 with | [c] => some (c, p.2) | _ => none))
def kvCharFStr (l : List (Char × Float)) : String := kvFStr (l.map (fun p => ([p.1], p.2)))

def kvAA? (s : String) : Option (List (Seq × Char)) :=
  if s == "-" then some [] else (s.splitOn ",").mapM (fun t => match t.splitOn "=" with
    | [k, v] => (match v.toList with | [c] => some (seqOf k, c) | _ => none)
    | _ => none)
def kvAAStr (l : List (Seq × Char)) : String :=
  if l.isEmpty then "-" else joinWith "," (l.map (fun p => seqStr p.1 ++ "=" ++ String.singleton p.2))

def locTok (l : Loc) : String := s!"{l.start}:{l.stop}:{l.strand}"
def locTok? (s : String) : Option Loc :=
  match s.splitOn ":" with
  | [a, b, c] => do pure ⟨← int? a, ← int? b, ← int? c⟩
  | _ => none

def bspecStr : BSpec Float → String
  | .avoidPattern p l => s!"AvoidPattern {patStr p} {locTok l}"
  | .patternOccurence p o l => s!"Occ {patStr p} {o} {locTok l}"
  | .gc mi ma w l => s!"GC {fbits mi} {fbits ma} {optNatStr w} {locTok l}"
  | .translation t st tr l => s!"CDS {t} {startStr st} {seqStr tr} {locTok l}"
  | .stopCodons t l => s!"Stop {t} {locTok l}"
  | .avoidChanges me tg sc => s!"Keep {fbits me} {seqStr tg} {scopeStr sc}"
  | .enforceChanges mi am ap mp rf sc => s!"Change {optFStr mi} {optFStr am} {ap} {mp} {seqStr rf} {scopeStr sc}"
  | .enforceSequence sq l => s!"Seq {seqStr sq} {locTok l}"
  | .enforceChoice cs l => s!"Choice {seqsStr cs} {locTok l}"
  | .terminalGC mi ma w es => s!"Term {fbits mi} {fbits ma} {w} " ++ (if es.isEmpty then "-" else joinWith "," (es.map locTok))
  | .lengthBounds a b => s!"Len {a} " ++ (match b with | none => "-" | some v => toString v)
  | .rareCodons mf fr l => s!"Rare {fbits mf} {kvFStr fr} {locTok l}"
  | .cai lf lb ca l => s!"CAI {kvFStr lf} {kvCharFStr lb} {kvAAStr ca} {locTok l}"
  | .kmers k rc l r d => s!"Kmers {k} {rc} {locTok l} {locTok r} " ++ (match d with
      | none => "-"
      | some d =>
        let ints (l : List Int) : String := if l.isEmpty then "_" else joinWith "," ((l.mergeSort (· ≤ ·)).map toString)
        let sqs (l : List Seq) : String := if l.isEmpty then "_" else joinWith "," ((sortSeqs l).map seqStr)
        s!"{sqs d.locFixed};{ints d.locChanging};{sqs d.extFixed};{ints d.extChanging}")
  | .hairpins st w l => s!"Hairpins {st} {w} {locTok l}"
  | .rca rt ro og sm l => s!"RCA {kvFStr rt} {kvFStr ro} {seqsStr og} " ++ (if sm.isEmpty then "-" else joinWith "," (sm.map fbits)) ++ s!" {locTok l}"

def bspec? : List String → Option (BSpec Float)
  | ["AvoidPattern", p, l] => do pure (.avoidPattern (← pat? p) (← locTok? l))
  | ["Occ", p, o, l] => do pure (.patternOccurence (← pat? p) (← int? o) (← locTok? l))
  | ["GC", mi, ma, w, l] => do
    pure (.gc (← floatOf? mi) (← floatOf? ma) (← (if w == "-" then some none else (nat? w).map some)) (← locTok? l))
  | ["CDS", t, st, tr, l] => do pure (.translation (← nat? t) (start? st) (seqOf tr) (← locTok? l))
  | ["Stop", t, l] => do pure (.stopCodons (← nat? t) (← locTok? l))
  | ["Keep", me, tg, sc] => do pure (.avoidChanges (← floatOf? me) (seqOf tg) (← scope? sc))
  | ["Change", mi, am, ap, mp, rf, sc] => do
    pure (.enforceChanges (← optF? mi) (← optF? am) (ap == "true") (mp == "true") (seqOf rf) (← scope? sc))
  | ["Seq", sq, l] => do pure (.enforceSequence (seqOf sq) (← locTok? l))
  | ["Choice", cs, l] => do pure (.enforceChoice (seqs? cs) (← locTok? l))
  | ["Term", mi, ma, w, es] => do
    let ends ← if es == "-" then some [] else (es.splitOn ",").mapM locTok?
    pure (.terminalGC (← floatOf? mi) (← floatOf? ma) (← nat? w) ends)
  | ["Len", a, b] => do pure (.lengthBounds (← int? a) (← optInt? b))
  | ["Rare", mf, fr, l] => do pure (.rareCodons (← floatOf? mf) (← kvF? fr) (← locTok? l))
  | ["CAI", lf, lb, ca, l] => do pure (.cai (← kvF? lf) (← kvCharF? lb) (← kvAA? ca) (← locTok? l))
  | ["Kmers", k, rc, l, r, d] => do
    let data ← if d == "-" then some none else
      (match d.splitOn ";" with
       | [f1, c1, f2, c2] => do
         let ints (t : String) : Option (List Int) := if t == "_" then some [] else (t.splitOn ",").mapM int?
         let sqs (t : String) : List Seq := if t == "_" then [] else (t.splitOn ",").map seqOf
         pure (some (⟨sqs f1, ← ints c1, sqs f2, ← ints c2⟩ : KmerData))
       | _ => none)
    pure (.kmers (← nat? k) (rc == "true") (← locTok? l) (← locTok? r) data)
  | ["Hairpins", st, w, l] => do pure (.hairpins (← nat? st) (← nat? w) (← locTok? l))
  | ["RCA", rt, ro, og, sm, l] => do
    let sm ← if sm == "-" then some [] else (sm.splitOn ",").mapM floatOf?
    pure (.rca (← kvF? rt) (← kvF? ro) (seqs? og) sm (← locTok? l))
  | _ => none

def locsOptStr : Option (List Loc) → String
  | none => "None"
  | some [] => "e"
  | some ls => joinWith "," (ls.map locTok)

def handleSpec (toks : List String) : Option String :=
  match toks with
  | cmd :: rest =>
    match cmd, splitBar rest with
    | "spec.eval", [_, spec, [sq]] => do
      let b ← bspec? spec
      pure (match b.evaluate (seqOf sq) with
        | none => "raises"
        | some e => s!"{fbits e.score} ; {locsOptStr e.locs}")
    | "spec.local", [_, spec, [l, rh], [sq]] => do
      let b ← bspec? spec
      let loc ← locTok? l
      let rh ← (if rh == "-" then some none else (bool? rh).map some)
      let r : Option (BSpec.Localized Float) := match b with
        | .kmers k rc kl kr _ => BSpec.localizedKmers k rc kl kr loc rh (seqOf sq)
        | _ => some (b.localized loc rh)
      pure (match r with
        | none => "raises"
        | some .none => "none"
        | some .same => "same"
        | some .typeError => "typeerror"
        | some (.new b') => bspecStr b')
    | "spec.local", [_, spec, [l, rh]] => do
      let b ← bspec? spec
      let loc ← locTok? l
      let rh ← (if rh == "-" then some none else (bool? rh).map some)
      pure (match b.localized loc rh with
        | .none => "none"
        | .same => "same"
        | .typeError => "typeerror"
        | .new b' => bspecStr b')
    | "spec.restrict", [_, spec, [sq]] => do
      let b ← bspec? spec
      pure (match b.restrict (seqOf sq) with
        | none => "raises"
        | some rs => if rs.isEmpty then "-" else
            joinWith " " (rs.map (fun r => s!"{r.start}:{r.stop}:{sortedVariants r.variants}")))
    | "tables.index", [_, [name]] => do
      let i ← lookup (name.replace "_" " ") Gen.codonTableNames
      pure (toString i)
    | _, _ => none
  | _ => none

def floatPairs? : List String → Option (List (Float × Float))
  | [] => some []
  | a :: b :: rest => do
    let a ← a.toNat?; let b ← b.toNat?
    let r ← floatPairs? rest
    pure ((Float.ofBits a.toUInt64, Float.ofBits b.toUInt64) :: r)
  | _ => none

def handleReport : List String → Option String
  | ["report.edits", before, cur] =>
    let p : Life := ⟨seqOf before, seqOf cur⟩
    if p.before.length != p.cur.length then pure "ValueError" else
    pure (s!"{p.numberOfEdits} | " ++ joinWith " " (p.editFeatures.map fun f =>
      s!"{f.start}-{f.stop}:{seqStr f.labelBefore}=>{seqStr f.labelAfter}"))
  | "report.summary" :: flags => do
    let fl ← flags.mapM bool?
    pure ((summaryOf fl).render.replace " " "_")
  | "report.total" :: rest => do
    let es ← floatPairs? rest
    pure (toString (weightedTotal es).toBits)
  | _ => none

def hexVal (c : Char) : Option Nat :=
  if c.isDigit then some (c.toNat - '0'.toNat)
  else if 'a' ≤ c && c ≤ 'f' then some (c.toNat - 'a'.toNat + 10) else none

def unhex : List Char → Option (List Char)
  | [] => some []
  | a :: b :: r => do
    let x ← hexVal a; let y ← hexVal b
    let rest ← unhex r
    pure (Char.ofNat (x * 16 + y) :: rest)
  | _ => none

def hexDigit (n : Nat) : Char := if n < 10 then Char.ofNat (n + '0'.toNat) else Char.ofNat (n - 10 + 'a'.toNat)
def hex (s : List Char) : String :=
  if s.isEmpty then "." else String.ofList (s.flatMap fun c => [hexDigit (c.toNat / 16 % 16), hexDigit (c.toNat % 16)])

def atomStr : Label.Atom → String
  | .int n => s!"i:{n}"
  | .float t => s!"f:{hex t}"
  | .str t => s!"s:{hex t}"

def valStr : Label.Val → String
  | .atom a => atomStr a
  | .list as => "l:[" ++ joinWith ";" (as.map atomStr) ++ "]"

def perrStr : Label.PErr → String
  | .valueError => "ValueError"
  | .typeError => "TypeError"
  | .outOfModel => "out-of-model"

def parsedStr (p : Label.Parsed) : String :=
  let ks := p.kwargs.map (fun e => (String.ofList e.1, s!"{hex e.1}={valStr e.2}"))
  let ks := (ks.toArray.qsort (fun a b => a.1 < b.1)).toList.map (·.2)
  (if p.role == .constraint then "constraint" else "objective") ++ " " ++ p.cls ++ " | " ++
    joinWith " " (p.args.map atomStr) ++ " | " ++ joinWith " " ks

def handleLabel : List String → Option String
  | ["label.parse", h] => do
    let l ← unhex (if h == "." then [] else h.toList)
    pure (match Label.listFromLabel Gen.specRegistry l with
      | .error e => perrStr e
      | .ok ps => joinWith " & " (ps.map parsedStr))
  | ["label.value", h] => do
    let l ← unhex (if h == "." then [] else h.toList)
    pure (atomStr (Label.formatAtom l))
  | "label.find" :: rest => do
    -- label.find <type> <label hex|-> <note hex|->
    match rest with
    | [ty, lab, note] =>
      let dec (x : String) : Option (Option (List Char)) :=
        if x == "-" then some none else (unhex (if x == "." then [] else x.toList)).map some
      let f : Label.Feature := ⟨ty, ← dec lab, ← dec note, 0, 0, 0⟩
      pure (match Label.findLabel f with | none => "none" | some l => hex l)
    | _ => none
  | _ => none

def handle (toks : List String) : String :=
  match toks with
  | [] => "bad-op"
  | cmd :: _ =>
    let r :=
      if cmd.startsWith "loc." then handleLoc toks
      else if cmd.startsWith "seq." then handleSeq toks
      else if cmd.startsWith "pat." then handlePat toks
      else if cmd.startsWith "space." then handleSpace toks
      else if cmd.startsWith "choice." then handleChoice toks
      else if cmd == "solve.circ_resolve" then handleCirc toks
      else if cmd.startsWith "solve." then handleSolve toks
      else if cmd.startsWith "report." then handleReport toks
      else if cmd.startsWith "label." then handleLabel toks
      else if cmd.startsWith "spec." || cmd.startsWith "tables." then handleSpec toks
      else none
    r.getD "bad-op"

partial def loop (h : IO.FS.Stream) (out : IO.FS.Stream) : IO Unit := do
  let line ← h.getLine
  if line.isEmpty then return ()
  let toks := (line.trimAscii.toString.splitOn " ").filter (· ≠ "")
  out.putStrLn (handle toks)
  loop h out

end Drv

def main : IO Unit := do
  let out ← IO.getStdout
  Drv.loop (← IO.getStdin) out
  out.flush
