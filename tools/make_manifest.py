#!/venv/bin/python
"""Regenerate MANIFEST.json from the list of built checks (harness/props/Cxx.py with a Lean Props file)."""
import json, os
V = os.path.dirname(os.path.dirname(os.path.abspath(__file__)))
props = [json.loads(l) for l in open(os.path.join(V, "properties.jsonl"))]
TEXT = json.load(open(os.path.join(V, "tools", "manifest_texts.json")))
claimed = [p["id"] for p in props if p["id"] in TEXT and os.path.exists(os.path.join(V, "harness", "props", p["id"] + ".py"))
           and os.path.exists(os.path.join(V, "lean", "DnaModel", "Props", p["id"] + ".lean"))]
m = dict(version=1,
         setup_cmd="/venv/bin/python harness/extract_tables.py && cd lean && lake build DnaModel driver",
         hooks=dict(guard="DNACHISEL_VERIF",
                    enable="no guarded code exists in /repo: observation is done from the harness process (subclassing, wrapping numpy.random)",
                    baseline_off_cmd="cd /repo && /venv/bin/python -m pytest -ra -q -p no:cacheprovider --timeout=900 --continue-on-collection-errors",
                    source_commits=[], add_only=True),
         engines=[dict(name="lean-model", path="lean/", serves_properties=claimed,
                       kind_free_text="Lean 4 model (hand-written, plus tables/constants generated from /repo on every run) with theorems; "
                                      "differential correspondence with the real code through a compiled line-protocol driver; "
                                      "independent oracles searching the real code for failing inputs")],
         checks=[], notes="see DESIGN.md", not_applicable=[])
for p in props:
    i = p["id"]
    if i in claimed:
        t = TEXT[i]
        m["checks"].append(dict(
            property_id=i, quick_cmd="./check %s --tier quick" % i, thorough_cmd="./check %s --tier thorough" % i,
            evidence_file="evidence/%s.json" % i, replay_cmd_template="./check %s --replay {path}" % i, engine="lean-model",
            level_claimed=dict(category="proof", text=t["text"], design_ref="DESIGN.md section 5, " + i),
            level_note=t["note"], technique=t.get("technique", "Lean 4 proof about a model + model/implementation correspondence check")))
    else:
        m["not_applicable"].append(dict(property_id=i, reason=TEXT.get(i, {}).get("na", "check not built yet in this revision (planned: DESIGN.md section 5)")))
json.dump(m, open(os.path.join(V, "MANIFEST.json"), "w"), indent=1)
print("claimed:", claimed)
