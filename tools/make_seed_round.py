#!/venv/bin/python
"""Prepare a round of seeded-change sub-agents: one scratch worktree of /repo and one prompt file per property.

usage: tools/make_seed_round.py <round-dir>          (e.g. /tmp/seed9)
Each sub-agent is then started with: "Read the file <round-dir>/<Cxx>.prompt and carry out exactly the task it describes."
The template (tools/seed_prompt_template.txt) lists the kinds of trigger to prefer: edit that list for every round.
Agents see only the property text, their worktree and the names of earlier seeds - nothing from /verif.
"""
import json, os, shutil, subprocess, sys
V = os.path.dirname(os.path.dirname(os.path.abspath(__file__)))
rd = sys.argv[1]
os.makedirs(os.path.join(rd, "shim"), exist_ok=True)
shutil.copy(os.path.join(V, "harness", "shims", "dnachisel_shim.py"), os.path.join(rd, "shim"))
tpl = open(os.path.join(V, "tools", "seed_prompt_template.txt")).read()
seeds = sorted(os.listdir(os.path.join(V, "seeded")))
for l in open(os.path.join(V, "properties.jsonl")):
    p = json.loads(l)
    wt = os.path.join(rd, p["id"])
    subprocess.run(["git", "-C", "/repo", "worktree", "add", "--detach", wt, "HEAD"], capture_output=True)
    txt = json.dumps({k: p[k] for k in ("id", "title", "statement", "quantifier", "why_tests_cant", "anchors")}, indent=1)
    open(os.path.join(rd, p["id"] + ".prompt"), "w").write(
        tpl.replace("{PROPERTY_JSON}", txt).replace("{WT}", wt).replace("{SHIM}", os.path.join(rd, "shim"))
           .replace("{PREVIOUS_SEED_NAMES}", ", ".join(s for s in seeds if s.startswith(p["id"]))))
print("prompts in", rd)
