#!/venv/bin/python
"""Regression of every seeded change in parallel, without touching /repo: each worker has its own scratch worktree of
/repo and its own copy of /verif (under /tmp/regr, removed at the end).

usage: tools/regress_seeds.py [-j N] [name-prefix ...]    -> prints the seeds whose property check no longer reports them
"""
import json
import os
import shutil
import subprocess
import sys
from concurrent.futures import ThreadPoolExecutor

VERIF = os.path.dirname(os.path.dirname(os.path.abspath(__file__)))
ROOT = "/tmp/regr"


def sh(cmd, cwd=None, env=None, timeout=3000):
    p = subprocess.run(cmd, shell=True, cwd=cwd, capture_output=True, text=True, timeout=timeout, env=env)
    return p.returncode, p.stdout + p.stderr


def worker(i, names):
    wt, vf = "%s/repo_%d" % (ROOT, i), "%s/verif_%d" % (ROOT, i)
    sh("git -C /repo worktree add --detach %s HEAD" % wt)
    sh("rsync -a --exclude .git --exclude replays %s/ %s/" % (VERIF, vf))
    env = dict(os.environ, DNACHISEL_REPO=wt, PYTHONDONTWRITEBYTECODE="1")
    res = {}
    for name in names:
        meta = json.load(open(os.path.join(VERIF, "seeded", name, "meta.json")))
        prop = meta["property"]
        rc, out = sh("git apply %s/seeded/%s/patch.diff" % (VERIF, name), cwd=wt)
        if rc != 0:
            res[name] = (prop, "patch-does-not-apply", "")
            continue
        rc, out = sh("./check %s --tier quick" % prop, cwd=vf, env=env)
        line = [l for l in out.split("\n") if l.startswith(("VIOLATION", "OK "))]
        res[name] = (prop, rc, (line[-1] if line else out[-300:])[:160])
        sh("git checkout -- .", cwd=wt)
        print("%-60s %s exit=%s %s" % (name, prop, rc, res[name][2][:90]), flush=True)
    sh("git -C /repo worktree remove --force %s" % wt)
    shutil.rmtree(vf, ignore_errors=True)
    return res


def main():
    args = sys.argv[1:]
    j = 8
    if args[:1] == ["-j"]:
        j = int(args[1]); args = args[2:]
    names = sorted(n for n in os.listdir(os.path.join(VERIF, "seeded"))
                   if os.path.exists(os.path.join(VERIF, "seeded", n, "meta.json")) and (not args or any(n.startswith(a) for a in args)))
    os.makedirs(ROOT, exist_ok=True)
    chunks = [names[i::j] for i in range(j)]
    allres = {}
    with ThreadPoolExecutor(j) as ex:
        for r in ex.map(lambda t: worker(*t), list(enumerate(chunks))):
            allres.update(r)
    missed = {n: r for n, r in allres.items() if r[1] != 1}
    print("\n%d seeds, %d detected, %d NOT detected" % (len(allres), len(allres) - len(missed), len(missed)))
    for n, r in sorted(missed.items()):
        print("MISSED %s %s" % (n, r))
    json.dump(allres, open("/tmp/regr/result.json", "w"), indent=1)
    shutil.rmtree(ROOT + "/__none__", ignore_errors=True)


if __name__ == "__main__":
    main()
