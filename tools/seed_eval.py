#!/venv/bin/python
"""Confirm a seeded change and run the checks against it.

usage: tools/seed_eval.py <property> <seed-name> <worktree> "<what it needs to manifest>" [other props to run...]

 1. in the scratch worktree: demo.py passes without the patch and fails with it; the pinned
    test suite still gives 51 passed with the patch
 2. copies patch.diff + demo.py to /verif/seeded/<seed-name>/
 3. applies the patch to /repo, runs ./check <property> (quick), reverts /repo
 4. writes meta.json
"""
import json
import os
import shutil
import subprocess
import sys

VERIF = os.path.dirname(os.path.dirname(os.path.abspath(__file__)))


def sh(cmd, cwd=None, timeout=3600):
    p = subprocess.run(cmd, shell=True, cwd=cwd, capture_output=True, text=True, timeout=timeout)
    return p.returncode, (p.stdout + p.stderr)


def main():
    prop, name, wt, needs = sys.argv[1:5]
    others = sys.argv[5:]
    dest = os.path.join(VERIF, "seeded", name)
    os.makedirs(dest, exist_ok=True)
    ran = []
    # 1. confirm in the worktree
    sh("git apply -R patch.diff", cwd=wt)
    rc0, out0 = sh("/venv/bin/python demo.py", cwd=wt, timeout=600)
    ran.append("original: demo.py exit %d" % rc0)
    rca, outa = sh("git apply patch.diff", cwd=wt)
    rc1, out1 = sh("/venv/bin/python demo.py", cwd=wt, timeout=600)
    ran.append("patched: demo.py exit %d (%s)" % (rc1, out1.strip().split("\n")[-1][:200]))
    rct, outt = sh("/venv/bin/python -m pytest -q -p no:cacheprovider --timeout=900 --continue-on-collection-errors 2>&1 | tail -1", cwd=wt)
    ran.append("patched: test suite: " + outt.strip())
    confirmed = rc0 == 0 and rc1 != 0 and "51 passed" in outt and rca == 0
    shutil.copy(os.path.join(wt, "patch.diff"), os.path.join(dest, "patch.diff"))
    shutil.copy(os.path.join(wt, "demo.py"), os.path.join(dest, "demo.py"))
    # 3. run the checks against /repo with the patch
    results = {}
    rc, out = sh("git -C /repo status --porcelain")
    if out.strip():
        print("refusing: /repo not clean:\n" + out)
        sys.exit(2)
    rc, out = sh("git -C /repo apply %s" % os.path.join(dest, "patch.diff"))
    if rc != 0:
        print("patch does not apply to /repo: " + out)
        results["apply"] = out
    else:
        try:
            for p in [prop] + others:
                rcc, outc = sh("./check %s --tier quick" % p, cwd=VERIF, timeout=3600)
                lines = [l for l in outc.split("\n") if l.startswith(("VIOLATION", "OK ", "KNOWN-FINDING", "counterexample", "BROKEN"))]
                results[p] = dict(exit=rcc, lines=[l[:400] for l in lines][:6])
                ran.append("./check %s --tier quick (patch applied to /repo) -> exit %d" % (p, rcc))
        finally:
            sh("git -C /repo checkout -- .")
            for p in [prop] + others:   # refresh evidence on the clean tree
                rcc, outc = sh("./check %s --tier quick" % p, cwd=VERIF, timeout=3600)
                results[p]["clean_tree_exit_after_revert"] = rcc
    meta = dict(property=prop, name=name, needs_to_manifest=needs, confirmed_breaks_property=confirmed,
                commands_run=ran, check_results=results,
                detected=bool(results.get(prop, {}).get("exit") == 1))
    json.dump(meta, open(os.path.join(dest, "meta.json"), "w"), indent=1)
    print(json.dumps(meta, indent=1))


if __name__ == "__main__":
    main()
