#!/venv/bin/python
"""Confirm and evaluate a batch of seeded changes in parallel, never touching /repo.

usage: tools/seed_intake.py <round-dir> <names.json>
  <round-dir>/<Cxx>/ is the sub-agent's scratch worktree (patch applied, demo.py, patch.diff);
  names.json: {"Cxx": ["seed-name", "what it needs to manifest"], ...}
For each entry without seeded/<seed-name>/meta.json:
  1. in the agent's worktree: demo.py passes without the patch, fails with it; the pinned suite still gives 51 passed
  2. patch.diff + demo.py are copied to seeded/<seed-name>/
  3. the property's quick check runs in a private copy of /verif against a private worktree of /repo with the patch
  4. meta.json is written
"""
import json
import os
import shutil
import subprocess
import sys
from concurrent.futures import ThreadPoolExecutor

VERIF = os.path.dirname(os.path.dirname(os.path.abspath(__file__)))
ROOT = "/tmp/intake"


def sh(cmd, cwd=None, env=None, timeout=3000):
    try:
        p = subprocess.run(cmd, shell=True, cwd=cwd, capture_output=True, text=True, timeout=timeout, env=env)
        return p.returncode, p.stdout + p.stderr
    except subprocess.TimeoutExpired:
        return 124, "timeout"


def one(args):
    i, prop, name, needs, rdir = args
    wt = os.path.join(rdir, prop)
    dest = os.path.join(VERIF, "seeded", name)
    ran = []
    sh("git apply -R patch.diff", cwd=wt)
    rc0, out0 = sh("/venv/bin/python demo.py", cwd=wt, timeout=600)
    ran.append("original: demo.py exit %d" % rc0)
    rca, _ = sh("git apply patch.diff", cwd=wt)
    rc1, out1 = sh("/venv/bin/python demo.py", cwd=wt, timeout=600)
    ran.append("patched: demo.py exit %d (%s)" % (rc1, out1.strip().split("\n")[-1][:200]))
    _, outt = sh("/venv/bin/python -m pytest -q -p no:cacheprovider --timeout=900 --continue-on-collection-errors 2>&1 | tail -1", cwd=wt)
    ran.append("patched: test suite: " + outt.strip())
    confirmed = rc0 == 0 and rc1 != 0 and "51 passed" in outt and rca == 0
    os.makedirs(dest, exist_ok=True)
    shutil.copy(os.path.join(wt, "patch.diff"), os.path.join(dest, "patch.diff"))
    shutil.copy(os.path.join(wt, "demo.py"), os.path.join(dest, "demo.py"))
    rw, vf = "%s/repo_%d" % (ROOT, i), "%s/verif_%d" % (ROOT, i)
    sh("git -C /repo worktree add --detach %s HEAD" % rw)
    sh("rsync -a --exclude .git --exclude replays %s/ %s/" % (VERIF, vf))
    env = dict(os.environ, DNACHISEL_REPO=rw, PYTHONDONTWRITEBYTECODE="1")
    results = {}
    rc, out = sh("git apply %s/patch.diff" % dest, cwd=rw)
    if rc != 0:
        results["apply"] = out
    else:
        rcc, outc = sh("./check %s --tier quick" % prop, cwd=vf, env=env)
        lines = [l for l in outc.split("\n") if l.startswith(("VIOLATION", "OK ", "counterexample", "BROKEN"))]
        results[prop] = dict(exit=rcc, lines=[l[:400] for l in lines][:6])
        ran.append("./check %s --tier quick (patch applied to a scratch worktree, DNACHISEL_REPO) -> exit %d" % (prop, rcc))
    sh("git -C /repo worktree remove --force %s" % rw)
    shutil.rmtree(vf, ignore_errors=True)
    meta = dict(property=prop, name=name, needs_to_manifest=needs, confirmed_breaks_property=confirmed, commands_run=ran,
                check_results=results, detected=bool(results.get(prop, {}).get("exit") == 1))
    json.dump(meta, open(os.path.join(dest, "meta.json"), "w"), indent=1)
    print("%-8s %-62s confirmed=%s detected=%s" % (prop, name, confirmed, meta["detected"]), flush=True)
    return meta


def main():
    rdir, names = sys.argv[1], json.load(open(sys.argv[2]))
    os.makedirs(ROOT, exist_ok=True)
    todo = [(i, p, v[0], v[1], rdir) for i, (p, v) in enumerate(sorted(names.items()))
            if not os.path.exists(os.path.join(VERIF, "seeded", v[0], "meta.json"))
            and os.path.exists(os.path.join(rdir, p, "patch.diff")) and os.path.exists(os.path.join(rdir, p, "demo.py"))]
    with ThreadPoolExecutor(8) as ex:
        list(ex.map(one, todo))


if __name__ == "__main__":
    main()
