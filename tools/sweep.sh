#!/bin/bash
# tools/sweep.sh <seed> [props...]: run the quick checks of all (or the given) properties in parallel with VERIF_SEED=<seed>
cd "$(dirname "$0")/.."
seed=$1; shift
props=${@:-C01 C02 C03 C04 C05 C06 C07 C08 C09 C10 C11 C12 C13 C14 C15 C16 C17 C18 C19 C20}
mkdir -p /tmp/sweep
for p in $props; do
  ( VERIF_SEED=$seed ./check $p --tier quick > /tmp/sweep/$p.$seed.log 2>&1; echo "$p seed=$seed exit=$? $(grep -E '^(OK|VIOLATION)' /tmp/sweep/$p.$seed.log | cut -c1-200)" ) &
done
wait
