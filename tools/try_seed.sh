#!/bin/bash
# tools/try_seed.sh <seed-dir-name> <property> [env...]: apply the seeded patch to /repo, run the quick check, revert
cd "$(dirname "$0")/.."
if [ -n "$(git -C /repo status --porcelain)" ]; then echo "/repo not clean"; exit 2; fi
git -C /repo apply "$PWD/seeded/$1/patch.diff" || exit 2
./check "$2" --tier quick 2>&1 | grep -E "^(OK|VIOLATION|KNOWN|counterexample|BROKEN)" | cut -c1-600
git -C /repo checkout -- .
